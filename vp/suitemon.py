"""The repository's own test-suite as a workload for the monitors (pytest plugin: ``-p vp.suitemon``).

The suite asserts single states of its fixtures; with this plugin loaded every test is *also* an execution that
the monitors watch (hooks H1-H3 of ``pycel._verif`` plus class-level wrappers installed here):

  C04  every ``read`` event of a formula with written references is covered by the formula's declared precedents;
       when the test is over, the reader has a graph edge from a node which covers what it read
  C09  every ``eval_enter`` has had its ``eval_exit`` when the test is over (per thread), and no captured error
       message is left pending after an outermost evaluation
  C06  an ``evaluate`` never makes more passes than it was asked for
  C01  when a test is over, every value a compiler *which was loaded from a file* still caches is the value which a
       fresh compile of that file shows after the same ``set_value`` history (only compilers which were used through
       the public API alone: a test that reaches into ``cell_map`` / the graph is its own business)

Observations go to the json file named by ``VP_SUITEMON_OUT``; the verdict is made by the check that started pytest.
The plugin never fails or changes a test.
"""
import json
import os
import re
import threading
import weakref

import pytest

COMPUTED = re.compile(r'\b(offset|indirect)\(', re.I)
OUT = os.environ.get('VP_SUITEMON_OUT')

STATE = {
    'test': None,
    'counters': {},
    'found': [],            # (property, key, message, test id)
    'compilers': [],        # weakrefs of the compilers seen in the current test
    'reads': [],            # (formula, read address) of the current test
    'depth': {},            # thread id -> open eval spans
    'passes': {},           # thread id -> [requested, made]
}
LOCK = threading.RLock()


def count(name, n=1):
    STATE['counters'][name] = STATE['counters'].get(name, 0) + n


def found(prop, key, msg):
    if len(STATE['found']) < 400:
        STATE['found'].append((prop, key, msg[:700], STATE['test']))


def _parse(address):
    from vp import wb
    try:
        sheet, ref = address.rsplit('!', 1)
        parts = ref.replace('$', '').split(':')
        if len(parts) > 2:
            return None
        c1, r1 = wb.split_coord(parts[0])
        c2, r2 = wb.split_coord(parts[-1])
        return sheet.strip("'"), c1, r1, c2, r2
    except Exception:
        return None


def covered(read, declared):
    if read in declared:
        return True
    r = _parse(read)
    if r is None:
        return None         # not decidable by this monitor (unbounded or odd form)
    boxes = [p for p in (_parse(d) for d in declared) if p is not None and p[0] == r[0]]
    if (r[3] - r[1] + 1) * (r[4] - r[2] + 1) > 4000:
        return None
    for col in range(r[1], r[3] + 1):
        for row in range(r[2], r[4] + 1):
            if not any(b[1] <= col <= b[3] and b[2] <= row <= b[4] for b in boxes):
                return False
    return True


def listener(event, info):
    tid = threading.get_ident()
    if STATE.get('own_work'):
        return              # the monitor's own fresh compile is not an observation
    with LOCK:
        if event == 'read':
            formula = info['formula']
            count('read_events')
            if formula.cell is None:
                return
            if STATE['depth'].get(tid, 0) <= 0:
                # a test which calls a library function itself with a reference it made up: not a read made by
                # evaluating a formula (it is attributed to whichever formula loaded that function last)
                count('reads_outside_of_any_evaluation_skipped')
                return
            if COMPUTED.search(formula.python_code or ''):
                count('reads_of_computed_references_skipped')
                return
            read = str(info['address'])
            if read.startswith('#'):
                return
            declared = {a.address for a in formula.needed_addresses}
            c = covered(read, declared)
            if c is None:
                count('reads_not_decidable')
            elif not c:
                found('C04', 'suite/read-not-declared',
                      f'{formula.cell.address.address} ({formula.python_code}) read {read}; declared {sorted(declared)}')
            else:
                count('reads_covered_by_declared_precedents')
                STATE['reads'].append((formula, read))
        elif event == 'eval_enter':
            STATE['depth'][tid] = STATE['depth'].get(tid, 0) + 1
            count('eval_spans')
        elif event == 'eval_exit':
            STATE['depth'][tid] = STATE['depth'].get(tid, 0) - 1
            if STATE['depth'][tid] == 0 and info.get('ok') and info.get('pending'):
                found('C09', 'suite/captured-message-left-pending',
                      f'{info["pending"]} captured messages pending after an outermost evaluation that succeeded')
        elif event == 'iter_begin':
            STATE['passes'][tid] = [info['iterations'], 0]
            count('iterative_evaluations')
        elif event == 'iter_pass':
            p = STATE['passes'].get(tid)
            if p is not None:
                p[1] += 1
                count('iterative_passes')
                # inc_iteration_number is called once before the first pass
                if p[0] is not None and p[1] > p[0] + 1:
                    found('C06', 'suite/more-passes-than-requested', f'{p[1] - 1} passes, {p[0]} requested')


class Tracked:
    """what the plugin remembers about one compiler"""

    def __init__(self, comp):
        self.ref = weakref.ref(comp)
        self.history = []           # public calls which change what a fresh compile has to be given
        self.private = False        # something other than the public API was used


TRACK = weakref.WeakKeyDictionary()


def tracked(comp):
    t = TRACK.get(comp)
    if t is None:
        t = TRACK[comp] = Tracked(comp)
    if all(r() is not comp for r in STATE['compilers']):
        STATE['compilers'].append(weakref.ref(comp))
    return t


def install():
    from pycel import _verif
    from pycel import excelcompiler as ec
    if not _verif.ENABLED:
        raise RuntimeError('PYCEL_VERIF=1 is needed')
    if listener not in _verif.listeners:
        _verif.listeners.append(listener)
    if getattr(ec.ExcelCompiler, '_vp_suitemon', False):
        return
    ec.ExcelCompiler._vp_suitemon = True
    init, set_value, trim = ec.ExcelCompiler.__init__, ec.ExcelCompiler.set_value, ec.ExcelCompiler.trim_graph

    def __init__(self, *a, **kw):
        init(self, *a, **kw)
        t = tracked(self)
        excel = kw.get('excel') or (a[1] if len(a) > 1 else None)
        if excel is None:
            t.source = a[0] if a else kw.get('filename')
        else:
            # a wrapper around a workbook file stands for that file
            t.source = getattr(excel, 'filename', None) if type(excel).__name__ == 'ExcelOpxWrapper' else None
        t.kwargs = {k: v for k, v in kw.items() if k in ('plugins', 'cycles')}
        count('compilers')

    def _set_value(self, address, value, set_as_range=False):
        tracked(self).history.append((str(address), value, set_as_range))
        count('set_value_calls')
        return set_value(self, address, value, set_as_range=set_as_range)

    def _trim(self, *a, **kw):
        tracked(self).private = True        # a trimmed model is not the workbook any more (C08's business)
        return trim(self, *a, **kw)

    ec.ExcelCompiler.__init__ = __init__
    ec.ExcelCompiler.set_value = _set_value
    ec.ExcelCompiler.trim_graph = _trim


def same(a, b):
    from vp import wb
    return wb.same(a, b)


def end_of_test():
    """the quiescent point: the test body is over"""
    from pycel.excelcompiler import ExcelCompiler
    comps = [r() for r in STATE['compilers'] if r() is not None]
    # C09: spans are balanced
    for tid, d in list(STATE['depth'].items()):
        if d != 0:
            found('C09', 'suite/evaluation-span-left-open', f'{d} eval_enter events without eval_exit')
        STATE['depth'][tid] = 0
    # C04: edges for what was read
    for formula, read in STATE['reads']:
        cell = formula.cell
        x = cell.address.address
        comp = next((c for c in comps if c.cell_map.get(x) is cell), None)
        if comp is None:
            count('reads_whose_compiler_is_gone')
            continue
        g = comp.dep_graph
        if cell not in g:
            found('C04', 'suite/reader-not-in-graph', f'{x} read {read} but is not a graph node')
            continue
        preds = {p.address.address for p in g.predecessors(cell)}
        c = covered(read, preds)
        count('edge_checks')
        if c is False:
            found('C04', 'suite/read-without-edge', f'{x} read {read}; graph predecessors {sorted(preds)}')
    # C01: cached values against a fresh compile of the same file with the same writes
    for comp in comps:
        t = TRACK.get(comp)
        if t is None or t.private or not getattr(t, 'source', None) or comp.cycles:
            continue
        src = t.source
        if not isinstance(src, str) or not src.endswith('.xlsx') or not os.path.exists(src):
            continue
        if type(comp) is not ExcelCompiler:
            continue
        cached = {a: c.value for a, c in list(comp.cell_map.items())
                  if getattr(c, 'formula', None) and not c.address.is_range and c.value is not None}
        if not cached or len(cached) > 400:
            continue
        if any(COMPUTED.search(c.formula.python_code or '') for c in comp.cell_map.values()
               if getattr(c, 'formula', None)):
            count('c01_models_with_computed_references_skipped')
            continue
        STATE['own_work'] = True
        try:
            fresh = ExcelCompiler(src, **t.kwargs)
            TRACK[fresh].private = True
            for addr, value, as_range in t.history:
                fresh.evaluate(addr)
                fresh.set_value(addr, value, set_as_range=as_range)
            # a fresh model serves the results stored in the file until something is written: prime it
            vals = {a: fresh.evaluate(a) for a in cached}
        except Exception as exc:     # noqa
            count('c01_fresh_compile_raised')
            continue
        finally:
            STATE['own_work'] = False
        count('c01_models_compared')
        for a, v in cached.items():
            count('c01_values_compared')
            if not same(v, vals[a]):
                found('C01', 'suite/cached-value-differs-from-fresh-compile',
                      f'{os.path.basename(src)} {a}: cached {v!r}, a fresh compile after the writes {t.history[:6]} '
                      f'shows {vals[a]!r}')
    STATE['reads'] = []
    STATE['compilers'] = []


@pytest.hookimpl(hookwrapper=True)
def pytest_runtest_call(item):
    install()
    STATE['test'] = item.nodeid
    count('tests')
    yield
    try:
        with LOCK:
            end_of_test()
    except Exception as exc:      # noqa  - the plugin must never change the outcome of a test
        count('monitor_errors')
        if len(STATE.setdefault('errors', [])) < 10:
            import traceback
            STATE['errors'].append(f'{item.nodeid}: {traceback.format_exc()[-1500:]}')


def pytest_sessionfinish(session, exitstatus):
    if OUT:
        with open(OUT, 'w') as f:
            json.dump({'counters': STATE['counters'], 'found': STATE['found'], 'errors': STATE.get('errors', []),
                       'exitstatus': int(exitstatus)}, f, indent=1, default=repr)
