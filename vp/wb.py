"""Workbook specs and the ways a pycel model is obtained from one.

spec = {
  'sheets': [[name, {coord: value-or-'=formula', ...}], ...],    first sheet is the active one
  'names':  {name: "Sheet1!$A$1" | "'My Sheet'!$A$1:$B$2"},
  'arrays': [[sheet, ref, '=formula'], ...],                     CSE array formulas
  'calc':   None | {'iterate': bool, 'count': int, 'delta': float},
}
Values are int / float / str (not starting with '=') / bool / None (blank) / error-code strings.
"""
import io
import os
import zipfile
from xml.sax.saxutils import escape

ERRORS = ('#NULL!', '#DIV/0!', '#VALUE!', '#REF!', '#NAME?', '#NUM!', '#N/A')


def is_formula(v):
    return isinstance(v, str) and v.startswith('=')


def quote_sheet(name):
    if all(c.isalnum() or c == '_' for c in name) and not name[0].isdigit():
        return name
    return "'" + name.replace("'", "''") + "'"


def addr(sheet, coord):
    """pycel's canonical address string (cell_map key)"""
    return f'{sheet}!{coord}'


def col_letter(n):
    s = ''
    while n:
        n, r = divmod(n - 1, 26)
        s = chr(65 + r) + s
    return s


def coord(col, row):
    return f'{col_letter(col)}{row}'


def split_coord(c):
    i = 0
    while c[i].isalpha():
        i += 1
    col = 0
    for ch in c[:i]:
        col = col * 26 + ord(ch.upper()) - 64
    return col, int(c[i:])


def range_cells(ref):
    """'A1:B2' -> list of rows of coords"""
    if ':' not in ref:
        return [[ref]]
    a, b = ref.split(':')
    (c1, r1), (c2, r2) = split_coord(a), split_coord(b)
    return [[coord(c, r) for c in range(c1, c2 + 1)] for r in range(r1, r2 + 1)]


def spec_cells(spec):
    """{address: value} over all sheets (array formula members excluded)"""
    return {addr(s, c): v for s, cells in spec['sheets'] for c, v in cells.items()}


def array_members(spec):
    """{member address: (sheet, ref, formula, row, col)}"""
    out = {}
    for sheet, ref, formula in spec.get('arrays', ()):
        for i, row in enumerate(range_cells(ref)):
            for j, c in enumerate(row):
                out[addr(sheet, c)] = (sheet, ref, formula, i, j)
    return out


def with_inputs(spec, inputs):
    """a copy of the spec with the non-formula cells in ``inputs`` {address: value} replaced"""
    new = dict(spec)
    new['sheets'] = [[s, dict(cells)] for s, cells in spec['sheets']]
    by_name = {s: cells for s, cells in new['sheets']}
    for a, v in inputs.items():
        s, c = a.rsplit('!', 1)
        by_name[s][c] = v
    return new


# --------------------------------------------------------------------------- in-memory workbook

def to_openpyxl(spec):
    from openpyxl import Workbook
    from openpyxl.workbook.defined_name import DefinedName
    from openpyxl.workbook.properties import CalcProperties
    import pycel  # noqa: F401  (installs the formula_attributes shim)

    wb = Workbook()
    first = True
    for name, cells in spec['sheets']:
        if first:
            ws = wb.active
            ws.title = name
            first = False
        else:
            ws = wb.create_sheet(name)
        for c, v in cells.items():
            if v is not None:
                ws[c] = v
    for sheet, ref, formula in spec.get('arrays', ()):
        ws = wb[sheet]
        top = ref.split(':')[0]
        ws[top] = formula
        ws.formula_attributes[top] = {'t': 'array', 'ref': ref}
    for name, target in (spec.get('names') or {}).items():
        dn = DefinedName(name, attr_text=target)
        if hasattr(wb.defined_names, 'add'):
            wb.defined_names.add(dn)
        else:  # pragma: no cover
            wb.defined_names.append(dn)
    calc = spec.get('calc')
    if calc:
        wb.calculation = CalcProperties(iterate=bool(calc['iterate']),
                                        iterateCount=calc.get('count', 100),
                                        iterateDelta=calc.get('delta', 0.001))
    return wb


def compile_mem(spec, plugins=None, **kw):
    from pycel import ExcelCompiler
    return ExcelCompiler(excel=to_openpyxl(spec), plugins=plugins, **kw)


# --------------------------------------------------------------------------- xlsx with stored results

def _num(v):
    return repr(float(v)) if isinstance(v, float) else str(v)


def _cell_xml(c, v, stored=None, array_ref=None, member_only=False):
    """one <c> element.  ``v`` is the cell content (value or '=formula'); ``stored`` the cached
    result of a formula cell; member_only: non-top-left member of an array formula"""
    def typed(val):
        if hasattr(val, 'item') and not isinstance(val, (bool, int, float, str)):
            val = val.item()       # numpy scalar
        if isinstance(val, bool):
            return ' t="b"', f'<v>{int(val)}</v>'
        if isinstance(val, float) and (val != val or val in (float('inf'), float('-inf'))):
            return '', ''      # not representable: no cached result
        if isinstance(val, (int, float)):
            return '', f'<v>{_num(val)}</v>'
        if isinstance(val, str) and val in ERRORS:
            return ' t="e"', f'<v>{escape(val)}</v>'
        if isinstance(val, str):
            return ' t="str"', f'<v>{escape(val)}</v>'
        return '', ''
    if member_only:
        t, body = typed(stored)
        return f'<c r="{c}"{t}>{body}</c>' if body else ''
    if is_formula(v):
        t, body = typed(stored)
        fattr = f' t="array" ref="{array_ref}"' if array_ref else ''
        return f'<c r="{c}"{t}><f{fattr}>{escape(v[1:])}</f>{body}</c>'
    if v is None:
        return ''
    if isinstance(v, str) and v not in ERRORS:
        return (f'<c r="{c}" t="inlineStr"><is><t xml:space="preserve">{escape(v)}</t></is></c>')
    t, body = typed(v)
    return f'<c r="{c}"{t}>{body}</c>'


def xlsx_bytes(spec, stored=None):
    """A minimal .xlsx.  ``stored`` = {address: cached result} for formula cells / array members."""
    stored = stored or {}
    members = array_members(spec)
    sheets_xml = []
    for sheet, cells in spec['sheets']:
        grid = {}
        for c, v in cells.items():
            grid[split_coord(c)[::-1]] = _cell_xml(c, v, stored.get(addr(sheet, c)))
        for a, (s, ref, formula, i, j) in members.items():
            if s != sheet:
                continue
            c = a.rsplit('!', 1)[1]
            if i == 0 and j == 0:
                grid[split_coord(c)[::-1]] = _cell_xml(c, formula, stored.get(a), array_ref=ref)
            else:
                grid[split_coord(c)[::-1]] = _cell_xml(c, None, stored.get(a), member_only=True)
        rows = {}
        for (r, cidx), xml in sorted(grid.items()):
            if xml:
                rows.setdefault(r, []).append(xml)
        body = ''.join(f'<row r="{r}">{"".join(x)}</row>' for r, x in sorted(rows.items()))
        sheets_xml.append(
            '<?xml version="1.0" encoding="UTF-8" standalone="yes"?>'
            '<worksheet xmlns="http://schemas.openxmlformats.org/spreadsheetml/2006/main">'
            f'<sheetData>{body}</sheetData></worksheet>')

    n = len(spec['sheets'])
    names = spec.get('names') or {}
    defined = ''
    if names:
        defined = '<definedNames>' + ''.join(
            f'<definedName name="{escape(k)}">{escape(v)}</definedName>'
            for k, v in names.items()) + '</definedNames>'
    calc = spec.get('calc')
    calc_xml = ''
    if calc:
        calc_xml = (f'<calcPr calcId="0" iterate="{int(bool(calc["iterate"]))}" '
                    f'iterateCount="{calc.get("count", 100)}" '
                    f'iterateDelta="{_num(calc.get("delta", 0.001))}"/>')
    workbook = (
        '<?xml version="1.0" encoding="UTF-8" standalone="yes"?>'
        '<workbook xmlns="http://schemas.openxmlformats.org/spreadsheetml/2006/main" '
        'xmlns:r="http://schemas.openxmlformats.org/officeDocument/2006/relationships">'
        '<sheets>' + ''.join(
            f'<sheet name="{escape(name, {chr(34): "&quot;"})}" sheetId="{i + 1}" r:id="rId{i + 1}"/>'
            for i, (name, _) in enumerate(spec['sheets'])) +
        f'</sheets>{defined}{calc_xml}</workbook>')
    wb_rels = (
        '<?xml version="1.0" encoding="UTF-8" standalone="yes"?>'
        '<Relationships xmlns="http://schemas.openxmlformats.org/package/2006/relationships">' +
        ''.join(
            f'<Relationship Id="rId{i + 1}" Type="http://schemas.openxmlformats.org/officeDocument/'
            f'2006/relationships/worksheet" Target="worksheets/sheet{i + 1}.xml"/>'
            for i in range(n)) +
        f'<Relationship Id="rId{n + 1}" Type="http://schemas.openxmlformats.org/officeDocument/'
        '2006/relationships/styles" Target="styles.xml"/>'
        '</Relationships>')
    styles = (
        '<?xml version="1.0" encoding="UTF-8" standalone="yes"?>'
        '<styleSheet xmlns="http://schemas.openxmlformats.org/spreadsheetml/2006/main">'
        '<fonts count="1"><font><sz val="11"/><name val="Calibri"/></font></fonts>'
        '<fills count="1"><fill><patternFill patternType="none"/></fill></fills>'
        '<borders count="1"><border><left/><right/><top/><bottom/><diagonal/></border></borders>'
        '<cellStyleXfs count="1"><xf numFmtId="0" fontId="0" fillId="0" borderId="0"/></cellStyleXfs>'
        '<cellXfs count="1"><xf numFmtId="0" fontId="0" fillId="0" borderId="0" xfId="0"/></cellXfs>'
        '</styleSheet>')
    content_types = (
        '<?xml version="1.0" encoding="UTF-8" standalone="yes"?>'
        '<Types xmlns="http://schemas.openxmlformats.org/package/2006/content-types">'
        '<Default Extension="rels" ContentType="application/vnd.openxmlformats-package.relationships+xml"/>'
        '<Default Extension="xml" ContentType="application/xml"/>'
        '<Override PartName="/xl/workbook.xml" ContentType="application/vnd.openxmlformats-'
        'officedocument.spreadsheetml.sheet.main+xml"/>'
        '<Override PartName="/xl/styles.xml" ContentType="application/vnd.openxmlformats-'
        'officedocument.spreadsheetml.styles+xml"/>' +
        ''.join(
            f'<Override PartName="/xl/worksheets/sheet{i + 1}.xml" ContentType="application/vnd.'
            'openxmlformats-officedocument.spreadsheetml.worksheet+xml"/>' for i in range(n)) +
        '</Types>')
    rels = (
        '<?xml version="1.0" encoding="UTF-8" standalone="yes"?>'
        '<Relationships xmlns="http://schemas.openxmlformats.org/package/2006/relationships">'
        '<Relationship Id="rId1" Type="http://schemas.openxmlformats.org/officeDocument/2006/'
        'relationships/officeDocument" Target="xl/workbook.xml"/></Relationships>')
    buf = io.BytesIO()
    with zipfile.ZipFile(buf, 'w', zipfile.ZIP_STORED) as z:
        z.writestr('[Content_Types].xml', content_types)
        z.writestr('_rels/.rels', rels)
        z.writestr('xl/workbook.xml', workbook)
        z.writestr('xl/_rels/workbook.xml.rels', wb_rels)
        z.writestr('xl/styles.xml', styles)
        for i, xml in enumerate(sheets_xml):
            z.writestr(f'xl/worksheets/sheet{i + 1}.xml', xml)
    return buf.getvalue()


def write_xlsx(spec, path, stored=None):
    data = xlsx_bytes(spec, stored)
    with open(path, 'wb') as f:
        f.write(data)
    return path


def compile_xlsx(spec, path, stored=None, plugins=None, **kw):
    from pycel import ExcelCompiler
    write_xlsx(spec, path, stored)
    return ExcelCompiler(filename=path, plugins=plugins, **kw)


# --------------------------------------------------------------------------- fresh evaluation (the model)

def outcome(fn, *a, **kw):
    """('v', value) or ('x', exception class name) of a pycel call"""
    try:
        return ('v', fn(*a, **kw))
    except RecursionError:
        return ('x', 'RecursionError')
    except Exception as exc:  # noqa
        return ('x', type(exc).__name__)


def fresh_values(spec, addresses=None, plugins=None):
    """evaluate the given addresses (default: every cell + array member) on a brand new
    in-memory compile of the spec; {address: outcome}"""
    comp = compile_mem(spec, plugins=plugins)
    if addresses is None:
        addresses = list(spec_cells(spec)) + list(array_members(spec))
    return {a: outcome(comp.evaluate, a) for a in addresses}


def all_addresses(spec):
    out = list(spec_cells(spec))
    for a in array_members(spec):
        if a not in out:
            out.append(a)
    return out


def norm(v):
    """canonical, type-strict form of an Excel scalar or array for comparison:
    logical vs number distinct, int == float when numerically equal, blank (None) distinct."""
    import numpy as np
    if isinstance(v, (tuple, list)):
        return ('arr',) + tuple(norm(x) for x in v)
    if isinstance(v, (bool, np.bool_)):
        return ('b', bool(v))
    if isinstance(v, (int, float, np.integer, np.floating)):
        try:
            f = float(v)
        except OverflowError:           # an integer beyond the range of a double
            return ('bigint', int(v))
        if f != f:
            return ('nan',)
        return ('n', f if f != 0 else 0.0)
    if v is None:
        return ('blank',)
    if isinstance(v, str):
        return ('s', v)
    return ('?', repr(v))


def same(a, b, rel=1e-9):
    """type-strict equality of two normalised values, numbers within a relative tolerance"""
    a, b = norm(a), norm(b)
    return _same(a, b, rel)


def _same(a, b, rel):
    if a[0] != b[0]:
        return False
    if a[0] == 'arr':
        return len(a) == len(b) and all(_same(x, y, rel) for x, y in zip(a[1:], b[1:]))
    if a[0] == 'n':
        x, y = a[1], b[1]
        if x == y:
            return True
        return abs(x - y) <= rel * max(abs(x), abs(y)) + 1e-12
    if a[0] == 's' and a != b:
        return _same_text(a[1], b[1], rel)
    return a == b


_NUM_IN_TEXT = None


def _same_text(x, y, rel):
    """texts built by & from computed numbers ('-0.4999999-txt' vs '-0.4999999000000006-txt', '0s' vs
    '2e-300s') differ by float noise of the summation order (python's sum() compensates for exact floats only,
    and values loaded from yaml/json are float subclasses): compare the numbers embedded in the text
    numerically.  Two plain integers that a double holds exactly must still be the same digits."""
    global _NUM_IN_TEXT
    import re
    if _NUM_IN_TEXT is None:
        _NUM_IN_TEXT = re.compile(r'-?\d+(?:\.\d+)?(?:[eE][-+]?\d+)?')
    px, py = _NUM_IN_TEXT.split(x), _NUM_IN_TEXT.split(y)
    if px != py:
        return False
    nx, ny = _NUM_IN_TEXT.findall(x), _NUM_IN_TEXT.findall(y)
    for u, v in zip(nx, ny):
        if u == v:
            continue
        plain_u, plain_v = u.lstrip('-').isdigit(), v.lstrip('-').isdigit()
        if plain_u and plain_v and len(u.lstrip('-')) < 16 and len(v.lstrip('-')) < 16:
            return False            # different integers
        fu, fv = float(u), float(v)
        if plain_u and plain_v:
            tol, slack = 1e-13, 0.0      # long integers: only the last bits of a double
        else:
            tol, slack = max(rel, 1e-12), 1e-12
        if fu != fv and abs(fu - fv) > tol * max(abs(fu), abs(fv)) + slack:
            return False
    return True


def same_outcome(a, b, rel=1e-9):
    if a[0] != b[0]:
        return False
    if a[0] == 'x':
        return a[1] == b[1]
    return same(a[1], b[1], rel)


def raised_outside_harness(exc):
    """True when the innermost frame of the traceback is not harness code (i.e. the exception comes
    out of pycel or a library it calls): such an exception is a witness, not a harness error"""
    import os
    tb = exc.__traceback__
    last = None
    while tb is not None:
        last = tb.tb_frame.f_code.co_filename
        tb = tb.tb_next
    here = os.path.dirname(os.path.abspath(__file__))
    if last is not None and os.path.abspath(last) == os.path.join(here, 'plugins.py'):
        # a fault injected through pycel's plugins= parameter that comes out of a pycel call unwrapped is a
        # witness about pycel (it must wrap it), not a failure of the harness
        return True
    return last is not None and not os.path.abspath(last).startswith(here)


def describe(exc):
    import traceback
    frames = traceback.extract_tb(exc.__traceback__)
    where = ' <- '.join(f'{os.path.basename(f.filename)}:{f.lineno}:{f.name}' for f in frames[-3:][::-1])
    return f'{type(exc).__name__}: {str(exc).strip().splitlines()[-1][:160] if str(exc).strip() else ""} at {where}'

# --------------------------------------------------------------------------- values from a pristine process

_PRISTINE_CHILD = r"""
import json, os, sys
job, res = sys.argv[1], sys.argv[2]
from vp import core, wb
core.assert_pycel_from_repo()
import pycel  # noqa
specs = json.load(open(job))
out = []
for k, item in enumerate(specs):
    part = f'{res}.{k}'
    pid = os.fork()
    if pid == 0:
        try:
            vals = wb.fresh_values(item['spec'], item.get('addresses'), plugins=item.get('plugins'))
            data = {a: [o[0], wb.norm(o[1]) if o[0] == 'v' else o[1]] for a, o in vals.items()}
            json.dump(data, open(part, 'w'))
        finally:
            os._exit(0)
    os.waitpid(pid, 0)
    out.append(json.load(open(part)) if os.path.exists(part) else None)
json.dump(out, open(res, 'w'))
os._exit(0)
"""


def _untuple(x):
    return tuple(_untuple(v) for v in x) if isinstance(x, list) else x


def pristine_outcomes(items, tmpdir, timeout=180):
    """[{address: (kind, normalised value | exception name)}] of the cells of each item['spec'], computed by
    a fresh compile in a process that has never touched another workbook (one forked child per item; the parent
    has only imported pycel).  What a long-lived process computes for the same workbook must be the same:
    state that outlives a workbook (class attributes, module caches) shows as a difference."""
    import json
    import subprocess
    import sys
    from vp import core
    job, res = os.path.join(tmpdir, 'pristine-job.json'), os.path.join(tmpdir, 'pristine-res.json')
    with open(job, 'w') as f:
        json.dump(items, f)
    if os.path.exists(res):
        os.remove(res)
    r = subprocess.run([sys.executable, '-X', 'faulthandler', '-c', _PRISTINE_CHILD, job, res],
                       env=core.check_env(), capture_output=True, text=True, timeout=timeout)
    if not os.path.exists(res):
        raise RuntimeError(f'pristine child failed: {r.stderr[-800:]}')
    with open(res) as f:
        data = json.load(f)
    return [None if d is None else {a: (o[0], _untuple(o[1])) for a, o in d.items()} for d in data]


def same_as_pristine(outcome, pristine, rel=1e-9):
    """an in-process outcome against a pristine_outcomes() entry (already normalised)"""
    if outcome[0] != pristine[0]:
        return False
    if outcome[0] == 'x':
        return outcome[1] == pristine[1]
    return _same(norm(outcome[1]), pristine[1], rel)


def denorm(n):
    """the Excel scalar of a normalised value (see norm)"""
    kind = n[0]
    if kind == 'arr':
        return tuple(denorm(x) for x in n[1:])
    if kind == 'blank':
        return None
    if kind == 'nan':
        return float('nan')
    if kind == 'n':
        return int(n[1]) if float(n[1]).is_integer() and abs(n[1]) < 2 ** 53 else n[1]
    return n[1]

