"""Seeded workbook generators.

``dag``         acyclic by construction: a cell at raster position p (sheet-major, then row, then
                column) references only cells / rectangles entirely at positions < p.  The generator
                therefore owns a ground-truth dependency relation independent of pycel's graph.
``contraction`` circular linear systems x = Ax + b with ||A||inf <= q < 1 and a known fixed point.
"""
from vp.wb import addr, coord, quote_sheet, range_cells

S1, S2, SD = 'Sheet1', 'My Sheet', 'Data'
# other names for the second sheet: characters that mean something to a regular expression, to python source text
# or to the address syntax (never an apostrophe or an exclamation mark: the harness splits addresses at the last '!')
S2_NAMES = (S2, S2, S2, 'P&L (EU)', 'Costs+1,2', 'a-b.c #3', '2024', 'in"put')

NUMBERS = [0, 1, -1, 2, 3, 7, 10, 100, 0.5, -2.25, 3.0, 1e-7, 4096, -0.0, 12.75, -4]
# (1e22 is deliberately absent: sums that cancel catastrophically depend on the order of addition,
#  which is float noise and not a property of the cache)
WRITE_POOL = NUMBERS + ['3', ' 3 ', '1e2', 'abc', 'Abc', '', 'TRUE', 'x y', True, False, None]
ERROR_POOL = ['#N/A', '#DIV/0!', '#VALUE!', '#REF!', '#NAME?', '#NUM!', '#NULL!']

MAXC, MAXR = 5, 6   # A1:E6


def pick_value(rng, errors=False, numeric_bias=0.7):
    if rng.random() < numeric_bias:
        return rng.choice(NUMBERS)
    if errors and rng.random() < 0.3:
        return rng.choice(ERROR_POOL)
    return rng.choice(WRITE_POOL)


def type_tag(v):
    if v is None:
        return 'blank'
    if isinstance(v, bool):
        return 'TRUE' if v else 'FALSE'
    if isinstance(v, (int, float)):
        return '0' if v == 0 else ('1' if v == 1 else 'number')
    if isinstance(v, str) and v.startswith('#'):
        return 'error'
    return 'text'


class _Gen:
    def __init__(self, rng, opts):
        self.rng = rng
        self.opts = opts
        self.cells = {}     # (sheet_idx, row, col) -> value/formula
        self.meta = {}      # address -> {'form': tag, 'deps': [address...]}
        self.names = {}
        self.name_targets = {}   # name -> (sheet, ref)
        self.arrays = []
        self.sheets = [S1]
        self.occupied = set()

    # position helpers -------------------------------------------------------
    def a(self, pos):
        return addr(self.sheets[pos[0]], coord(pos[2], pos[1]))

    def before(self, pos):
        return sorted(p for p in self.occupied if p < pos)

    def ref_text(self, pos, cur_sheet_idx, force_sheet=False):
        rng = self.rng
        c, r = coord(pos[2], pos[1]), None
        style = rng.random()
        col, row = c.rstrip('0123456789'), c.lstrip('ABCDEFGHIJKLMNOPQRSTUVWXYZ')
        if style < 0.15:
            c = f'${col}${row}'
        elif style < 0.22:
            c = f'${col}{row}'
        elif style < 0.29:
            c = f'{col}${row}'
        if pos[0] != cur_sheet_idx or force_sheet or rng.random() < 0.12:
            return f'{quote_sheet(self.sheets[pos[0]])}!{c}'
        return c

    def rect_before(self, pos, same_shape_as=None):
        """a rectangle (sheet_idx, r1, c1, r2, c2) whose cells are all at raster positions < pos
        and which contains at least one occupied cell; None if impossible"""
        rng = self.rng
        for _ in range(30):
            anchors = self.before(pos)
            if not anchors:
                return None
            s, r, c = rng.choice(anchors)
            if same_shape_as:
                h, w = same_shape_as
                r1, c1 = r, c
                r2, c2 = r1 + h - 1, c1 + w - 1
            else:
                r1 = rng.randint(max(1, r - 2), r)
                c1 = rng.randint(max(1, c - 2), c)
                r2 = rng.randint(r, min(MAXR, r + 2))
                c2 = rng.randint(c, min(MAXC, c + 2))
            if r2 > MAXR or c2 > MAXC:
                continue
            if (s, r2, c2) < pos and (r1, c1) != (r2, c2):
                return (s, r1, c1, r2, c2)
        return None

    def rect_text(self, rect, cur_sheet_idx):
        s, r1, c1, r2, c2 = rect
        ref = f'{coord(c1, r1)}:{coord(c2, r2)}'
        if self.rng.random() < 0.15:
            ref = f'${coord(c1, r1)[0]}${r1}:${coord(c2, r2)[0]}${r2}'
        if s != cur_sheet_idx or self.rng.random() < 0.1:
            return f'{quote_sheet(self.sheets[s])}!{ref}'
        return ref

    def rect_cells(self, rect):
        s, r1, c1, r2, c2 = rect
        return [addr(self.sheets[s], coord(c, r)) for r in range(r1, r2 + 1)
                for c in range(c1, c2 + 1)]

    # formula grammar --------------------------------------------------------
    def literal(self):
        return self.rng.choice(['1', '2', '0.5', '10', '"x"', '3', 'TRUE', '0'])

    def formula(self, pos):
        """returns (text, form tag, deps) for a formula placed at pos, or None"""
        rng = self.rng
        cur = pos[0]
        prev = self.before(pos)
        if not prev:
            return None
        forms = self.opts.get('forms') or FORMS
        form = rng.choice(forms)

        def ref():
            p = rng.choice(prev)
            return self.ref_text(p, cur), [self.a(p)]

        if form == 'arith':
            (x, dx), (y, dy) = ref(), ref()
            op = rng.choice('+-*/')
            if rng.random() < 0.4:
                z = self.literal() if rng.random() < 0.5 else None
                if z is None:
                    z, dz = ref()
                    dy = dy + dz
                return f'={x}{op}{y}{rng.choice("+-*")}{z}', form, dx + dy
            if rng.random() < 0.3:
                return f'={x}{op}{self.literal()}', form, dx
            return f'={x}{op}{y}', form, dx + dy
        if form == 'concat':
            (x, dx), (y, dy) = ref(), ref()
            if rng.random() < 0.5:
                return f'={x}&"-"&{y}', form, dx + dy
            return f'={x}&"s"', form, dx
        if form == 'cmp':
            (x, dx), (y, dy) = ref(), ref()
            op = rng.choice(['=', '<>', '<', '<=', '>', '>='])
            if rng.random() < 0.4:
                return f'={x}{op}{self.literal()}', form, dx
            return f'={x}{op}{y}', form, dx + dy
        if form == 'if':
            (x, dx), (y, dy), (z, dz) = ref(), ref(), ref()
            return f'=IF({x}>{rng.choice(["0", "1", "2"])},{y},{z})', form, dx + dy + dz
        if form == 'probe':
            x, dx = ref()
            f = rng.choice(['ISLOGICAL', 'ISBLANK', 'ISNUMBER', 'ISTEXT', 'ISERROR', 'N', 'ISNA'])
            return f'={f}({x})', form, dx
        if form in ('agg', 'nested'):
            rect = self.rect_before(pos)
            if rect is None:
                return None
            cells = self.rect_cells(rect)
            if form == 'nested' and not any(
                    isinstance(self.cells.get(self._pos_of(c)), str) and
                    str(self.cells.get(self._pos_of(c))).startswith('=') for c in cells):
                form = 'agg'
            f = rng.choice(['SUM', 'SUM', 'MIN', 'MAX', 'AVERAGE', 'COUNT', 'LARGE1', 'sum'])
            t = f'={f}({self.rect_text(rect, cur)})'
            if f == 'LARGE1':
                t = f'=LARGE({self.rect_text(rect, cur)},1)'
            if rng.random() < 0.3:
                x, dx = ref()
                return t + f'+{x}', form, cells + dx
            return t, form, cells
        if form == 'barerange':
            # a single cell whose formula is a bare multi-cell range: it shows the range's first cell
            rect = self.rect_before(pos)
            if rect is None:
                return None
            return f'={self.rect_text(rect, cur)}', form, self.rect_cells(rect)
        if form == 'multicolon':
            rect = self.rect_before(pos)
            if rect is None:
                return None
            s, r1, c1, r2, c2 = rect
            mid_r, mid_c = rng.randint(r1, r2), rng.randint(c1, c2)
            t = f'{coord(c1, r1)}:{coord(mid_c, mid_r)}:{coord(c2, r2)}'
            if s != cur:
                t = f'{quote_sheet(self.sheets[s])}!{t}'
            return f'=SUM({t})', form, self.rect_cells(rect)
        if form == 'intersect':
            rect = self.rect_before(pos)
            if rect is None:
                return None
            s, r1, c1, r2, c2 = rect
            if s != cur:
                return None
            # two rectangles inside rect (so both are < pos) sharing at least a cell
            ir, ic = rng.randint(r1, r2), rng.randint(c1, c2)
            a_ = (s, r1, c1, ir, c2) if (r1, c1) != (ir, c2) else rect
            b_ = (s, r1, ic, r2, c2) if (r1, ic) != (r2, c2) else rect
            ta = f'{coord(a_[2], a_[1])}:{coord(a_[4], a_[3])}'
            tb = f'{coord(b_[2], b_[1])}:{coord(b_[4], b_[3])}'
            if (ir - r1 + 1) * (c2 - ic + 1) < 2:
                return None   # a one cell intersection is not a range any more
            deps = sorted(set(self.rect_cells(a_)) | set(self.rect_cells(b_)))
            return f'=SUM({ta} {tb})', form, deps
        if form == 'union':
            ra, rb = self.rect_before(pos), self.rect_before(pos)
            if ra is None or rb is None:
                return None
            deps = sorted(set(self.rect_cells(ra)) | set(self.rect_cells(rb)))
            return f'=SUM(({self.rect_text(ra, cur)},{self.rect_text(rb, cur)}))', form, deps
        if form == 'name':
            cell_names = [n for n, (s, r) in self.name_targets.items() if ':' not in r and
                          self._name_pos(n) < pos]
            rng_names = [n for n, (s, r) in self.name_targets.items() if ':' in r and
                         self._name_pos(n) < pos]
            if rng_names and (not cell_names or rng.random() < 0.5):
                n = rng.choice(rng_names)
                s, r = self.name_targets[n]
                deps = [addr(s, c) for row in range_cells(r) for c in row]
                return f'={rng.choice(["SUM", "MAX", "COUNT"])}({n})', form, deps
            if cell_names:
                n = rng.choice(cell_names)
                s, r = self.name_targets[n]
                return f'={n}{rng.choice(["+1", "*2", "&\"n\""])}', form, [addr(s, r)]
            return None
        if form == 'unbounded':
            if SD not in self.sheets or self.sheets.index(SD) >= cur:
                return None
            sd = self.sheets.index(SD)
            data = [p for p in self.occupied if p[0] == sd]
            max_r, max_c = max(p[1] for p in data), max(p[2] for p in data)
            used = [(sd, r, c) for r in range(1, max_r + 1) for c in range(1, max_c + 1)]
            which = rng.choice(['A:A', 'B:B', 'A:B', '1:1', '2:2', '1:2'])
            f = rng.choice(['SUM', 'COUNT', 'MAX'])
            a_, b_ = which.split(':')
            if a_.isalpha():
                cols = range(ord(a_) - 64, ord(b_) - 64 + 1)
                deps = [self.a(p) for p in used if p[2] in cols]
            else:
                rows = range(int(a_), int(b_) + 1)
                deps = [self.a(p) for p in used if p[1] in rows]
            return f'={f}({SD}!{which})', form, sorted(deps)
        if form == 'index':
            rect = self.rect_before(pos)
            if rect is None:
                return None
            s, r1, c1, r2, c2 = rect
            i, j = rng.randint(1, r2 - r1 + 1), rng.randint(1, c2 - c1 + 1)
            return f'=INDEX({self.rect_text(rect, cur)},{i},{j})', form, self.rect_cells(rect)
        if form == 'rowcol':
            x, dx = ref()
            rect = self.rect_before(pos)
            if rect is not None and rng.random() < 0.5:
                return (f'=ROW({x})+COLUMN({self.rect_text(rect, cur)})', form,
                        dx + self.rect_cells(rect))
            return f'=ROW({x})*10+COLUMN({x})', form, dx
        if form == 'lookup':
            rect = self.rect_before(pos)
            if rect is None:
                return None
            x, dx = ref()
            s, r1, c1, r2, c2 = rect
            if rng.random() < 0.5:
                col = (s, r1, c1, r2, c1) if r1 != r2 else rect
                return (f'=MATCH({x},{self.rect_text(col, cur)},0)', form,
                        dx + self.rect_cells(col))
            return (f'=VLOOKUP({x},{self.rect_text(rect, cur)},{rng.randint(1, c2 - c1 + 1)},FALSE)',
                    form, dx + self.rect_cells(rect))
        if form == 'sumif':
            rect = self.rect_before(pos)
            if rect is None:
                return None
            f = rng.choice(['SUMIF', 'COUNTIF'])
            crit = rng.choice(['">0"', '1', '">=2"', '"<5"'] + (
                ['"<>x"', '"abc"'] if f == 'COUNTIF' else []))
            return f'={f}({self.rect_text(rect, cur)},{crit})', form, self.rect_cells(rect)
        if form == 'sumproduct':
            ra = self.rect_before(pos)
            if ra is None:
                return None
            shape = (ra[3] - ra[1] + 1, ra[4] - ra[2] + 1)
            rb = self.rect_before(pos, same_shape_as=shape)
            if rb is None:
                return None
            deps = sorted(set(self.rect_cells(ra)) | set(self.rect_cells(rb)))
            return (f'=SUMPRODUCT({self.rect_text(ra, cur)},{self.rect_text(rb, cur)})', form, deps)
        raise AssertionError(form)

    def _pos_of(self, address):
        s, c = address.rsplit('!', 1)
        from vp.wb import split_coord
        col, row = split_coord(c)
        return (self.sheets.index(s), row, col)

    def _name_pos(self, n):
        s, r = self.name_targets[n]
        last = r.split(':')[-1]
        return self._pos_of(addr(s, last))


FORMS = ['arith', 'arith', 'arith', 'concat', 'cmp', 'if', 'probe', 'agg', 'agg', 'nested',
         'nested', 'multicolon', 'intersect', 'union', 'name', 'name', 'unbounded', 'index',
         'rowcol', 'lookup', 'sumif', 'sumproduct', 'barerange']
ALL_FORMS = sorted(set(FORMS))


def dag(rng, n_cells=None, two_sheets=None, arrays=None, data_sheet=None, forms=None,
        errors=False, formula_ratio=0.6):
    """returns (spec, meta) ; meta = {'inputs': [addresses of non-formula cells],
    'formulas': {address: {'form', 'deps'}}, 'order': [addresses in raster order]}"""
    g = _Gen(rng, {'forms': forms})
    two_sheets = rng.random() < 0.4 if two_sheets is None else two_sheets
    data_sheet = rng.random() < 0.4 if data_sheet is None else data_sheet
    arrays = rng.random() < 0.35 if arrays is None else arrays
    g.sheets = ([SD] if data_sheet else []) + [S1] + ([rng.choice(S2_NAMES)] if two_sheets else [])
    n_cells = n_cells or rng.randint(4, 16)

    positions = set()
    if data_sheet:
        sd = g.sheets.index(SD)
        shape = rng.random()
        if shape < 0.15:
            # used area one row high: A:A and B:B clip to a single cell
            positions.update({(sd, 1, 1), (sd, 1, 2)})
        elif shape < 0.3:
            # used area one column wide: 1:1 and 2:2 clip to a single cell
            positions.update({(sd, 1, 1), (sd, 2, 1)})
        else:
            positions.update({(sd, 1, 1), (sd, 1, 2), (sd, 2, 1), (sd, 2, 2)})
            for _ in range(rng.randint(0, 3)):
                positions.add((sd, rng.randint(1, 3), rng.randint(1, 2)))
    main = [i for i, s in enumerate(g.sheets) if s != SD]
    tries = 0
    while len([p for p in positions if p[0] in main]) < n_cells and tries < 500:
        tries += 1
        positions.add((rng.choice(main), rng.randint(1, MAXR), rng.randint(1, MAXC)))

    names_wanted = rng.random() < 0.6
    for pos in sorted(positions):
        is_data = g.sheets[pos[0]] == SD
        made = None
        if not is_data and g.before(pos) and rng.random() < formula_ratio:
            for _ in range(6):
                made = g.formula(pos)
                if made:
                    break
        if made:
            text, form, deps = made
            g.cells[pos] = text
            g.meta[g.a(pos)] = {'form': form, 'deps': sorted(set(deps))}
        else:
            g.cells[pos] = pick_value(rng, errors=errors) if not is_data else rng.choice(
                [1, 2, 3, 5, 0.5, 'txt', True])
        g.occupied.add(pos)
        # defined names over what exists so far
        if names_wanted and not is_data and len(g.names) < 3 and rng.random() < 0.3:
            sname = g.sheets[pos[0]]
            c = coord(pos[2], pos[1])
            if rng.random() < 0.5 or pos[1] == 1:
                nm = f'nm_{len(g.names)}'
                g.names[nm] = f'{quote_sheet(sname)}!${c[0]}${pos[1]}'
                g.name_targets[nm] = (sname, c)
            else:
                nm = f'rg_{len(g.names)}'
                top = coord(pos[2], pos[1] - 1)
                g.names[nm] = f'{quote_sheet(sname)}!${top[0]}${pos[1] - 1}:${c[0]}${pos[1]}'
                g.name_targets[nm] = (sname, f'{top}:{c}')

    spec = {
        'sheets': [[name, {coord(p[2], p[1]): v for p, v in sorted(g.cells.items())
                           if p[0] == i}] for i, name in enumerate(g.sheets)],
        'names': g.names, 'arrays': [], 'calc': None,
    }
    # active sheet must be a main sheet: move it first
    spec['sheets'].sort(key=lambda sc: sc[0] != S1)
    meta = {
        'inputs': [g.a(p) for p, v in sorted(g.cells.items())
                   if not (isinstance(v, str) and v.startswith('='))],
        'formulas': g.meta,
        'order': [g.a(p) for p in sorted(g.cells)],
    }
    if arrays:
        add_array(rng, spec, meta)
    return spec, meta


def add_array(rng, spec, meta):
    """append one CSE array formula *after* every existing cell of Sheet1 (rows 7..9), reading
    existing cells only; members are appended to meta['formulas'] with their deps."""
    # on the first sheet, or (half of the time, when there is one) on the sheet with a blank in its name
    si = 0
    for k, (name, sheet_cells) in enumerate(spec['sheets']):
        if name in S2_NAMES and len(sheet_cells) >= 2 and rng.random() < 0.5:
            si = k
    cells = dict(spec['sheets'][si][1])
    coords = sorted(cells, key=lambda c: (int(c.lstrip('ABCDE')), c[0]))
    if len(coords) < 2:
        return
    sheet = spec['sheets'][si][0]
    kind = rng.choice(['vec*2', 'vec+vec', 'sumprod', 'row', 'scalar', 'vec*row'])
    col = rng.choice('ABCDE')
    r1 = rng.randint(1, 4)
    r2 = rng.randint(r1 + 1, min(6, r1 + 3))
    src = f'{col}{r1}:{col}{r2}'
    h = r2 - r1 + 1
    if kind == 'vec*2':
        formula, tshape, srcs = f'={src}*2', (rng.choice([h, h + 1, max(1, h - 1)]), 1), [src]
    elif kind == 'vec+vec':
        col2 = rng.choice('ABCDE')
        src2 = f'{col2}{r1}:{col2}{r2}'
        formula, tshape, srcs = f'={src}+{src2}', (h, rng.choice([1, 2])), [src, src2]
    elif kind == 'sumprod':
        col2 = rng.choice('ABCDE')
        src2 = f'{col2}{r1}:{col2}{r2}'
        formula, tshape, srcs = f'=SUM({src}*{src2})', (1, 1), [src, src2]
    elif kind == 'row':
        row = rng.randint(1, 6)
        src = f'A{row}:C{row}'
        formula, tshape, srcs = f'={src}&"r"', (rng.choice([1, 2]), rng.choice([3, 2, 4])), [src]
    elif kind == 'scalar':
        c = rng.choice(coords)
        formula, tshape, srcs = f'={c}+1', (2, 2), [c]
    else:
        row = rng.randint(1, 6)
        src2 = f'A{row}:B{row}'
        formula, tshape, srcs = f'={src}*{src2}', (h, 2), [src, src2]
    th, tw = tshape
    tr1, tc1 = 7, rng.randint(1, 5 - tw + 1) if tw <= 5 else 1
    ref = f'{coord(tc1, tr1)}:{coord(tc1 + tw - 1, tr1 + th - 1)}' if (th, tw) != (1, 1) \
        else coord(tc1, tr1)
    deps = sorted({addr(sheet, c) for s in srcs for row in range_cells(s) for c in row})
    spec['arrays'].append([sheet, ref, formula])
    for row in range_cells(ref):
        for c in row:
            meta['formulas'][addr(sheet, c)] = {'form': 'cse', 'deps': deps}
            meta['order'].append(addr(sheet, c))
    # a consumer of the array members, so that they are part of the DAG
    if rng.random() < 0.7:
        members = [c for row in range_cells(ref) for c in row]
        consumer = f'{coord(1, 13)}'
        if ':' in ref:
            spec['sheets'][si][1][consumer] = f'=SUM({ref})+{members[0]}'
        else:
            spec['sheets'][si][1][consumer] = f'={members[0]}*3'
        # SUM(ref) reads the array formula's range node (fed by the sources), not the member cells
        meta['formulas'][addr(sheet, consumer)] = {
            'form': 'cse-consumer', 'deps': sorted(set(deps) | {addr(sheet, members[0])})}
        meta['order'].append(addr(sheet, consumer))


def influencers(meta, address):
    """transitive ground-truth precedents (cell addresses) of a formula cell"""
    seen, todo = set(), [address]
    while todo:
        a = todo.pop()
        for d in meta['formulas'].get(a, {}).get('deps', ()):
            if d not in seen:
                seen.add(d)
                todo.append(d)
    return seen


def dependants(meta, address):
    """transitive ground-truth dependants of a cell"""
    out, changed = {address}, True
    while changed:
        changed = False
        for a, m in meta['formulas'].items():
            if a not in out and out.intersection(m['deps']):
                out.add(a)
                changed = True
    out.discard(address)
    return out


def shape_signature(spec, meta):
    """a canonical signature of the dependency shape (for distinct-graph counting)"""
    return tuple(sorted((a, m['form'], tuple(m['deps'])) for a, m in meta['formulas'].items()))


# --------------------------------------------------------------------------- circular systems

def contraction(rng, n=None, q=None, via_range=None):
    """x = A x + b with ||A||inf <= q.  Cells A1..An hold the unknowns:
       Ai = b_i + sum_j a_ij * Aj   (optionally one term routed through SUM(range) helper cells).
    returns (spec, info) with info = {'A', 'b', 'q', 'fixed': [x*...], 'cells': [addresses]}"""
    import numpy as np
    n = n or rng.randint(2, 5)
    q = q or rng.choice([0.2, 0.5, 0.8])
    via_range = rng.random() < 0.4 if via_range is None else via_range
    A = [[0.0] * n for _ in range(n)]
    for i in range(n):
        cols = [j for j in range(n) if rng.random() < 0.7]
        if not cols:
            cols = [rng.randrange(n)]
        raw = [rng.choice([-1, 1]) * rng.randint(1, 8) for _ in cols]
        tot = sum(abs(x) for x in raw)
        # coefficients with at most 4 decimals so that the formula text is exact
        for j, x in zip(cols, raw):
            A[i][j] = round(q * x / tot * 0.999, 4)
    # make sure it is really one strongly connected loop: i depends on i+1 (cyclically)
    for i in range(n):
        j = (i + 1) % n
        if A[i][j] == 0.0:
            A[i][j] = round(q / (4 * n), 4)
    for i in range(n):
        tot = sum(abs(x) for x in A[i])
        if tot > q:
            A[i] = [round(x * q / tot * 0.999, 4) for x in A[i]]
    b = [float(rng.randint(-20, 20)) for _ in range(n)]
    fixed = np.linalg.solve(np.eye(n) - np.array(A), np.array(b)).tolist()
    cells = {}
    for i in range(n):
        terms = [repr(b[i])]
        for j in range(n):
            if A[i][j]:
                terms.append(f'{A[i][j]!r}*A{j + 1}')
        cells[f'A{i + 1}'] = '=' + '+'.join(terms).replace('+-', '-')
    if via_range and n >= 2:
        # route row 0 through helper cells C1..Cn = a_0j*Aj and SUM(C1:Cn)
        for j in range(n):
            cells[f'C{j + 1}'] = f'={A[0][j]!r}*A{j + 1}'
        cells['A1'] = f'={b[0]!r}+SUM(C1:C{n})'
    spec = {'sheets': [[S1, cells]], 'names': {}, 'arrays': [], 'calc': None}
    return spec, {'A': A, 'b': b, 'q': max(sum(abs(x) for x in row) for row in A),
                  'fixed': fixed, 'cells': [addr(S1, f'A{i + 1}') for i in range(n)],
                  'via_range': bool(via_range and n >= 2), 'n': n}


# --------------------------------------------------------------------------- large workbooks

def big(rng):
    """an acyclic workbook of the sizes the small generator never reaches, same (spec, meta) form as ``dag``:
    a chain of 90-140 dependent cells, an 800-1500 cell block in the columns beyond Z (with formula cells inside)
    under whole-block aggregates, a 300-600 row sorted table under MATCH / VLOOKUP / INDEX, a dozen sheets added up
    by one formula, texts of 300 and 32 000 characters, integers beyond 2**31 / 2**53 / 15 digits, 30 defined
    names, 6 array formulas.  Everything is exact (small integers), so any order of addition gives the same value."""
    cells, fm, order = {}, {}, []          # Sheet1 cells, ground truth, raster order of the addresses made
    names = {}
    extra_sheets = []

    def put(c, v, form=None, deps=None, sheet=S1, store=None):
        (cells if store is None else store)[c] = v
        a = addr(sheet, c)
        order.append(a)
        if form:
            fm[a] = {'form': form, 'deps': sorted(set(deps))}

    # 1. chain in column H
    n_chain = rng.choice([90, 120, 140])      # (200 is where a fresh model runs out of stack)
    put('H1', rng.choice([1, 2, 5]))
    for i in range(2, n_chain + 1):
        op = rng.choice(['+1', '+2', '*1', '-1'])
        put(f'H{i}', f'=H{i - 1}{op}', 'arith', [addr(S1, f'H{i - 1}')])
    # 2. block beyond column Z, rows 101..
    w, h = rng.randint(20, 30), rng.randint(30, 50)
    c0, r0 = 27, 101
    block = []
    inner = set(rng.sample([(r, c) for r in range(1, h) for c in range(1, w)], 5))
    for r in range(h):
        for c in range(w):
            co = coord(c0 + c, r0 + r)
            block.append(addr(S1, co))
            if (r, c) in inner:
                src = coord(c0 + c - 1, r0 + r - 1)          # up-left neighbour: earlier in raster order
                put(co, f'={src}*2', 'arith', [addr(S1, src)])
            else:
                x = rng.random()
                put(co, None if x < 0.03 else 'txt' if x < 0.05 else True if x < 0.06 else rng.randint(-50, 50))
    for c in [k for k, v in list(cells.items()) if v is None]:
        del cells[c]
    bref = f'{coord(c0, r0)}:{coord(c0 + w - 1, r0 + h - 1)}'
    for k, f in enumerate(('SUM', 'COUNT', 'MAX', 'MIN', 'AVERAGE')):
        put(f'C{400 + k}', f'={f}({bref})', 'agg', block)
    colref = f'{coord(c0 + 1, r0)}:{coord(c0 + 1, r0 + h - 1)}'
    put('C405', f'=SUMIF({colref},">0")', 'sumif', [addr(S1, coord(c0 + 1, r0 + r)) for r in range(h)])
    put('C406', f'=SUM({coord(c0, r0)}:{coord(c0 + w - 1, r0)})+C400', 'agg',
        [addr(S1, coord(c0 + c, r0)) for c in range(w)] + [addr(S1, 'C400')])
    # 3. sorted table in CA:CB (columns 79, 80), rows 1..n
    n_tab = rng.choice([300, 450, 600])
    keys, vals = [], []
    for i in range(1, n_tab + 1):
        put(f'CA{i}', 3 * i)
        put(f'CB{i}', 1000 + i)
        keys.append(addr(S1, f'CA{i}'))
        vals.append(addr(S1, f'CB{i}'))
    put('A410', 3 * rng.randint(1, n_tab))
    put('A411', 3 * rng.randint(1, n_tab) + 1)
    put('D410', f'=MATCH(A410,CA1:CA{n_tab},0)', 'lookup', keys + [addr(S1, 'A410')])
    put('D411', f'=VLOOKUP(A410,CA1:CB{n_tab},2,FALSE)', 'lookup', keys + vals + [addr(S1, 'A410')])
    put('D412', f'=MATCH(A411,CA1:CA{n_tab},1)', 'lookup', keys + [addr(S1, 'A411')])
    put('D413', f'=INDEX(CB1:CB{n_tab},{n_tab - 7})+D410', 'index', vals + [addr(S1, 'D410')])
    put('D414', f'=VLOOKUP(A411,CA1:CB{n_tab},2,TRUE)+D412', 'lookup', keys + vals + [addr(S1, 'A411'), addr(S1, 'D412')])
    # (the last cell of the last column of the last sheet - where a saved model's text ends - has a reader of its own)
    put('D415', f'=CB{n_tab}*2+D411', 'arith', [addr(S1, f'CB{n_tab}'), addr(S1, 'D411')])
    # 4. a dozen sheets added up
    n_sheets = rng.randint(10, 14)
    terms, deps = [], []
    for k in range(1, n_sheets + 1):
        sname = f'S{k:02d}'
        store = {}
        put('A1', k * 10, sheet=sname, store=store)
        put('B2', f'=A1+{k}', 'arith', [addr(sname, 'A1')], sheet=sname, store=store)
        extra_sheets.append([sname, store])
        terms.append(f'{sname}!B2')
        deps.append(addr(sname, 'B2'))
    put('E420', '=' + '+'.join(terms), 'arith', deps)
    # 5. long texts
    put('F430', 'x' * 300)
    put('F431', 'yz' * 16000)      # (a cell holds at most 32 767 characters)
    put('F432', '=F430&F431', 'concat', [addr(S1, 'F430'), addr(S1, 'F431')])
    put('F433', '=LEN(F432)', 'arith', [addr(S1, 'F432')])
    put('F434', '=RIGHT(F431,3)&LEFT(F430,2)', 'concat', [addr(S1, 'F430'), addr(S1, 'F431')])
    # 6. big integers
    put('G440', 2 ** 31 + 1)
    put('G441', 2 ** 53 + 1)
    put('G442', 123456789012345678)
    put('G443', '=G440+1', 'arith', [addr(S1, 'G440')])
    put('G444', '=G442-G441', 'arith', [addr(S1, 'G441'), addr(S1, 'G442')])
    put('G445', '=G440*2=G440+G440', 'cmp', [addr(S1, 'G440')])
    put('G446', '=MAX(G440:G442)', 'agg', [addr(S1, f'G44{k}') for k in (0, 1, 2)])
    # 7. defined names over cells of the chain
    picks = rng.sample(range(1, n_chain + 1), 30)
    for k, i in enumerate(picks):
        names[f'nm_{k}'] = f'{S1}!$H${i}'
    used = rng.sample(range(30), 4)
    put('A450', '=' + '+'.join(f'nm_{k}' for k in used), 'name', [addr(S1, f'H{picks[k]}') for k in used])
    spec = {'sheets': [[S1, cells]] + extra_sheets, 'names': names, 'arrays': [], 'calc': None}
    meta = {'inputs': [], 'formulas': fm, 'order': order, 'big': True}
    # 8. array formulas over rows of the block
    for k in range(6):
        r = r0 + rng.randrange(h)
        src = f'{coord(c0, r)}:{coord(c0 + 2, r)}'
        ref = f'A{460 + k}:C{460 + k}'
        spec['arrays'].append([S1, ref, f'={src}*{k + 2}'])
        d = [addr(S1, c) for row in range_cells(src) for c in row]
        for row in range_cells(ref):
            for c in row:
                fm[addr(S1, c)] = {'form': 'cse', 'deps': d}
                order.append(addr(S1, c))
    by_sheet = dict(spec['sheets'])
    meta['inputs'] = [a for a in order if a not in fm and by_sheet[a.rsplit('!', 1)[0]].get(a.rsplit('!', 1)[1]) is not None]
    meta['order'] = [a for a in order if a in fm or a in set(meta['inputs'])]
    return spec, meta
